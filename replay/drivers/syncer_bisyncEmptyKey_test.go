//go:build verif

package syncer

// C20 demo: key-exists policy on the bidirectional (bisync) full-sync path for the key "".
//
// The empty string is a legal Redis key (SET "" v).  buildBisyncRdbReplayUnit treats an entry
// whose key has length 0 as having "no business key" (hasBusinessKey == false), so for such a
// snapshot key it
//   - never probes the target with EXISTS  -> "ignore" and "error" are not applied,
//   - never prepends DEL                   -> "replace" does not remove the old value,
//   - never uses RESTORE and drops PEXPIRE -> the snapshot's expiry is lost,
// and just sends the expanded native commands, which overwrite / are merged into the
// pre-existing key "" of the target.  The plain path (rdbReplay -> rdbrestore.Replay) applies
// the policy to the same snapshot correctly (control test below), and the bisync path applies
// it correctly to a non-empty key (control sub-assertions on key "k").
//
// The target is a loopback TCP stand-in (RESP2, MULTI/EXEC); the production client
// (pkg/redis/client/conn), RDB loader and rdbReplayBisync / rdbReplay loops are used unmodified.

import (
	"bufio"
	"bytes"
	"context"
	"encoding/binary"
	"fmt"
	"io"
	"net"
	"reflect"
	"strconv"
	"strings"
	"sync"
	"testing"
	"time"

	"github.com/mgtv-tech/redis-GunYu/config"
	"github.com/mgtv-tech/redis-GunYu/pkg/digest"
	"github.com/mgtv-tech/redis-GunYu/pkg/rdb"
)

// ---------------------------------------------------------------------------------------------
// minimal in-memory Redis stand-in (loopback TCP, RESP2)

type ekObj struct {
	typ      string // "string" | "hash" | "list" | "set" | "restored"
	str      string
	hash     map[string]string
	list     []string
	set      map[string]bool
	payload  []byte
	expireAt int64 // unix ms, 0 = no expiry
}

type ekStatus string
type ekError string

type ekServer struct {
	mu  sync.Mutex
	ln  net.Listener
	dbs map[int]map[string]*ekObj
	// RDB object types this target cannot decode in a RESTORE payload
	unknownTypes map[byte]bool
	log          []string
}

func newEkServer(t *testing.T) *ekServer {
	ln, err := net.Listen("tcp", "127.0.0.1:0")
	if err != nil {
		t.Fatalf("listen: %v", err)
	}
	s := &ekServer{ln: ln, dbs: map[int]map[string]*ekObj{}, unknownTypes: map[byte]bool{}}
	go func() {
		for {
			c, err := ln.Accept()
			if err != nil {
				return
			}
			go s.serve(c)
		}
	}()
	t.Cleanup(func() { ln.Close() })
	return s
}

func (s *ekServer) addr() string { return s.ln.Addr().String() }

func (s *ekServer) db(i int) map[string]*ekObj {
	if s.dbs[i] == nil {
		s.dbs[i] = map[string]*ekObj{}
	}
	return s.dbs[i]
}

func (s *ekServer) lookup(db int, key string) *ekObj {
	o := s.db(db)[key]
	if o == nil {
		return nil
	}
	if o.expireAt != 0 && time.Now().UnixMilli() >= o.expireAt {
		delete(s.db(db), key)
		return nil
	}
	return o
}

func ekReadCommand(r *bufio.Reader) ([]string, error) {
	line, err := r.ReadString('\n')
	if err != nil {
		return nil, err
	}
	line = strings.TrimRight(line, "\r\n")
	if len(line) == 0 || line[0] != '*' {
		return nil, fmt.Errorf("unexpected request line %q", line)
	}
	n, err := strconv.Atoi(line[1:])
	if err != nil {
		return nil, err
	}
	args := make([]string, 0, n)
	for i := 0; i < n; i++ {
		hdr, err := r.ReadString('\n')
		if err != nil {
			return nil, err
		}
		hdr = strings.TrimRight(hdr, "\r\n")
		if len(hdr) == 0 || hdr[0] != '$' {
			return nil, fmt.Errorf("unexpected bulk header %q", hdr)
		}
		l, err := strconv.Atoi(hdr[1:])
		if err != nil {
			return nil, err
		}
		buf := make([]byte, l+2)
		if _, err := io.ReadFull(r, buf); err != nil {
			return nil, err
		}
		args = append(args, string(buf[:l]))
	}
	return args, nil
}

func ekWriteReply(w *bufio.Writer, v interface{}) {
	switch x := v.(type) {
	case ekStatus:
		fmt.Fprintf(w, "+%s\r\n", string(x))
	case ekError:
		fmt.Fprintf(w, "-%s\r\n", string(x))
	case int:
		fmt.Fprintf(w, ":%d\r\n", x)
	case string:
		fmt.Fprintf(w, "$%d\r\n%s\r\n", len(x), x)
	case nil:
		fmt.Fprintf(w, "$-1\r\n")
	case []interface{}:
		fmt.Fprintf(w, "*%d\r\n", len(x))
		for _, e := range x {
			ekWriteReply(w, e)
		}
	default:
		panic(fmt.Sprintf("unsupported reply %T", v))
	}
}

type ekConnState struct {
	db      int
	inMulti bool
	queue   [][]string
}

func (s *ekServer) serve(c net.Conn) {
	defer c.Close()
	r := bufio.NewReader(c)
	w := bufio.NewWriter(c)
	st := &ekConnState{}
	for {
		args, err := ekReadCommand(r)
		if err != nil {
			return
		}
		s.mu.Lock()
		reply := s.dispatch(st, args)
		s.mu.Unlock()
		ekWriteReply(w, reply)
		if r.Buffered() == 0 {
			w.Flush()
		}
	}
}

func (s *ekServer) dispatch(st *ekConnState, args []string) interface{} {
	cmd := strings.ToLower(args[0])
	switch cmd {
	case "multi":
		st.inMulti = true
		st.queue = nil
		return ekStatus("OK")
	case "exec":
		if !st.inMulti {
			return ekError("ERR EXEC without MULTI")
		}
		st.inMulti = false
		out := make([]interface{}, 0, len(st.queue))
		for _, q := range st.queue {
			out = append(out, s.exec(st, q))
		}
		st.queue = nil
		return out
	}
	if st.inMulti {
		st.queue = append(st.queue, args)
		return ekStatus("QUEUED")
	}
	return s.exec(st, args)
}

const ekWrongType = ekError("WRONGTYPE Operation against a key holding the wrong kind of value")

func (s *ekServer) exec(st *ekConnState, args []string) interface{} {
	cmd := strings.ToLower(args[0])
	if cmd != "ping" {
		entry := cmd
		if len(args) > 1 {
			entry += " " + strconv.Quote(args[1])
		}
		if cmd == "restore" && strings.EqualFold(args[len(args)-1], "replace") {
			entry += " REPLACE"
		}
		s.log = append(s.log, entry)
	}
	db := s.db(st.db)
	switch cmd {
	case "ping":
		return ekStatus("PONG")
	case "select":
		n, err := strconv.Atoi(args[1])
		if err != nil {
			return ekError("ERR invalid DB index")
		}
		st.db = n
		return ekStatus("OK")
	case "exists":
		n := 0
		for _, k := range args[1:] {
			if s.lookup(st.db, k) != nil {
				n++
			}
		}
		return n
	case "del":
		n := 0
		for _, k := range args[1:] {
			if s.lookup(st.db, k) != nil {
				delete(db, k)
				n++
			}
		}
		return n
	case "set":
		o := &ekObj{typ: "string", str: args[2]}
		for i := 3; i+1 < len(args); i += 2 {
			if strings.EqualFold(args[i], "px") {
				ms, _ := strconv.ParseInt(args[i+1], 10, 64)
				o.expireAt = time.Now().UnixMilli() + ms
			}
		}
		db[args[1]] = o
		return ekStatus("OK")
	case "hset":
		o := s.lookup(st.db, args[1])
		if o == nil {
			o = &ekObj{typ: "hash", hash: map[string]string{}}
			db[args[1]] = o
		} else if o.typ != "hash" {
			return ekWrongType
		}
		n := 0
		for i := 2; i+1 < len(args); i += 2 {
			if _, ok := o.hash[args[i]]; !ok {
				n++
			}
			o.hash[args[i]] = args[i+1]
		}
		return n
	case "rpush":
		o := s.lookup(st.db, args[1])
		if o == nil {
			o = &ekObj{typ: "list"}
			db[args[1]] = o
		} else if o.typ != "list" {
			return ekWrongType
		}
		o.list = append(o.list, args[2:]...)
		return len(o.list)
	case "sadd":
		o := s.lookup(st.db, args[1])
		if o == nil {
			o = &ekObj{typ: "set", set: map[string]bool{}}
			db[args[1]] = o
		} else if o.typ != "set" {
			return ekWrongType
		}
		n := 0
		for _, m := range args[2:] {
			if !o.set[m] {
				n++
			}
			o.set[m] = true
		}
		return n
	case "pexpire":
		o := s.lookup(st.db, args[1])
		if o == nil {
			return 0
		}
		ms, err := strconv.ParseInt(args[2], 10, 64)
		if err != nil {
			return ekError("ERR value is not an integer or out of range")
		}
		o.expireAt = time.Now().UnixMilli() + ms
		return 1
	case "restore":
		// redis/src/cluster.c:restoreCommand, in its order of checks
		if len(args) < 4 {
			return ekError("ERR wrong number of arguments for 'restore' command")
		}
		replace := false
		for i := 4; i < len(args); i++ {
			switch strings.ToLower(args[i]) {
			case "replace":
				replace = true
			case "absttl":
			case "idletime", "freq":
				i++
			default:
				return ekError("ERR syntax error")
			}
		}
		key := args[1]
		if !replace && s.lookup(st.db, key) != nil {
			return ekError("BUSYKEY Target key name already exists.")
		}
		ttl, err := strconv.ParseInt(args[2], 10, 64)
		if err != nil || ttl < 0 {
			return ekError("ERR Invalid TTL value, must be >= 0")
		}
		payload := []byte(args[3])
		if len(payload) < 10 {
			return ekError("ERR DUMP payload version or checksum are wrong")
		}
		crc := digest.New()
		crc.Write(payload[:len(payload)-8])
		if binary.LittleEndian.Uint64(payload[len(payload)-8:]) != crc.Sum64() {
			return ekError("ERR DUMP payload version or checksum are wrong")
		}
		if s.unknownTypes[payload[0]] {
			return ekError("ERR Bad data format")
		}
		o := &ekObj{typ: "restored", payload: payload}
		if ttl > 0 {
			o.expireAt = time.Now().UnixMilli() + ttl
		}
		db[key] = o
		return ekStatus("OK")
	}
	return ekError("ERR unknown command '" + args[0] + "'")
}


// ---------------------------------------------------------------------------------------------
// snapshot construction (RDB version 9, plain encodings)

func ekRdbString(b *bytes.Buffer, s string) {
	if len(s) >= 64 {
		panic("only short strings here")
	}
	b.WriteByte(byte(len(s)))
	b.WriteString(s)
}

type ekSnapKey struct {
	key      string
	typ      byte // rdb.RdbTypeString or rdb.RdbTypeList
	str      string
	list     []string
	expireAt uint64
}

func ekSnapshot(keys ...ekSnapKey) []byte {
	var b bytes.Buffer
	b.WriteString("REDIS0009")
	b.WriteByte(rdb.RdbFlagSelectDB)
	b.WriteByte(0)
	for _, k := range keys {
		if k.expireAt != 0 {
			b.WriteByte(rdb.RdbFlagExpiryMS)
			var ts [8]byte
			binary.LittleEndian.PutUint64(ts[:], k.expireAt)
			b.Write(ts[:])
		}
		b.WriteByte(k.typ)
		ekRdbString(&b, k.key)
		switch k.typ {
		case rdb.RdbTypeString:
			ekRdbString(&b, k.str)
		case rdb.RdbTypeList:
			b.WriteByte(byte(len(k.list)))
			for _, e := range k.list {
				ekRdbString(&b, e)
			}
		default:
			panic("unsupported type")
		}
	}
	b.WriteByte(rdb.RdbFlagEOF)
	b.Write(make([]byte, 8)) // checksum 0 = not checked
	return b.Bytes()
}

func ekOutput(srv *ekServer, policy string, bisync bool) *RedisOutput {
	return NewRedisOutput(RedisOutputConfig{
		InputName:              "source-a",
		CheckpointName:         "redis-gunyu-checkpoint-bisync:test-a",
		BisyncEnabled:          bisync,
		CanTransaction:         true,
		KeyExists:              policy,
		ReplayRdbEnableRestore: true,
		MaxProtoBulkLen:        512 * 1024 * 1024,
		ReplayRdbParallel:      1,
		BatchCmdCount:          4,
		BatchBufferSize:        1024,
		Redis: config.RedisConfig{
			Addresses: []string{srv.addr()},
			Type:      config.RedisTypeStandalone,
			Version:   "7.2.4",
		},
	})
}

// feeds the parsed snapshot to the production replay loop of the chosen path
func ekReplay(t *testing.T, srv *ekServer, snapshot []byte, policy string, bisync bool) error {
	ro := ekOutput(srv, policy, bisync)
	pipe := rdb.ParseRdb(bytes.NewReader(snapshot), nil, 16, ro.rdbParseOptions()...)
	ctx, cancel := context.WithTimeout(context.Background(), 20*time.Second)
	defer cancel()
	if bisync {
		return ro.rdbReplayBisync(ctx, "run-1", 100, pipe)
	}
	return ro.rdbReplay(ctx, pipe)
}

func ekSeedTarget(srv *ekServer) {
	srv.mu.Lock()
	defer srv.mu.Unlock()
	srv.db(0)[""] = &ekObj{typ: "string", str: "old"}
	srv.db(0)["k"] = &ekObj{typ: "string", str: "old"}
}

func ekStringOf(srv *ekServer, key string) (string, string, int64) {
	srv.mu.Lock()
	defer srv.mu.Unlock()
	o := srv.lookup(0, key)
	if o == nil {
		return "", "none", 0
	}
	return o.str, o.typ, o.expireAt
}

// Control: the plain path applies "ignore" to the key "" as well.
func TestC20EmptyKeyIgnorePlainPathControl(t *testing.T) {
	srv := newEkServer(t)
	ekSeedTarget(srv)
	expireAt := uint64(time.Now().Add(time.Hour).UnixMilli())
	snap := ekSnapshot(
		ekSnapKey{key: "", typ: rdb.RdbTypeString, str: "new", expireAt: expireAt},
		ekSnapKey{key: "k", typ: rdb.RdbTypeString, str: "new", expireAt: expireAt},
	)
	if err := ekReplay(t, srv, snap, "ignore", false); err != nil {
		t.Fatalf("replay: %v", err)
	}
	for _, key := range []string{"", "k"} {
		if v, typ, exp := ekStringOf(srv, key); v != "old" || typ != "string" || exp != 0 {
			t.Errorf("plain path, ignore: key %q changed to value=%q type=%s expireAt=%d", key, v, typ, exp)
		}
	}
}

func TestC20EmptyKeyIgnoreBisyncPath(t *testing.T) {
	srv := newEkServer(t)
	ekSeedTarget(srv)
	expireAt := uint64(time.Now().Add(time.Hour).UnixMilli())
	snap := ekSnapshot(
		ekSnapKey{key: "", typ: rdb.RdbTypeString, str: "new", expireAt: expireAt},
		ekSnapKey{key: "k", typ: rdb.RdbTypeString, str: "new", expireAt: expireAt},
	)
	if err := ekReplay(t, srv, snap, "ignore", true); err != nil {
		t.Fatalf("replay: %v", err)
	}
	srv.mu.Lock()
	t.Logf("commands seen by the target: %v", srv.log)
	srv.mu.Unlock()
	if v, typ, exp := ekStringOf(srv, "k"); v != "old" || typ != "string" || exp != 0 {
		t.Errorf("bisync path, ignore: key \"k\" changed to value=%q type=%s expireAt=%d", v, typ, exp)
	}
	if v, typ, exp := ekStringOf(srv, ""); v != "old" || typ != "string" || exp != 0 {
		t.Errorf("bisync path, ignore: pre-existing key \"\" must keep value \"old\" without expiry, got value=%q type=%s expireAt=%d", v, typ, exp)
	}
}

func TestC20EmptyKeyErrorBisyncPath(t *testing.T) {
	srv := newEkServer(t)
	ekSeedTarget(srv)
	snap := ekSnapshot(ekSnapKey{key: "", typ: rdb.RdbTypeString, str: "new"})
	err := ekReplay(t, srv, snap, "error", true)
	srv.mu.Lock()
	t.Logf("commands seen by the target: %v", srv.log)
	srv.mu.Unlock()
	if err == nil {
		t.Errorf("bisync path, error: replay must stop with an error because key \"\" exists on the target, got nil")
	}
	if v, _, _ := ekStringOf(srv, ""); v != "old" {
		t.Errorf("bisync path, error: key \"\" must not be modified, got %q", v)
	}
}

func TestC20EmptyKeyReplaceBisyncPath(t *testing.T) {
	srv := newEkServer(t)
	srv.mu.Lock()
	srv.db(0)[""] = &ekObj{typ: "list", list: []string{"old"}}
	srv.db(0)["k"] = &ekObj{typ: "list", list: []string{"old"}}
	srv.mu.Unlock()
	expireAt := uint64(time.Now().Add(time.Hour).UnixMilli())
	snap := ekSnapshot(
		ekSnapKey{key: "", typ: rdb.RdbTypeList, list: []string{"new"}, expireAt: expireAt},
		ekSnapKey{key: "k", typ: rdb.RdbTypeList, list: []string{"new"}, expireAt: expireAt},
	)
	// RESTORE disabled so that also the control key "k" goes through DEL + RPUSH + PEXPIRE
	ro := ekOutput(srv, "replace", true)
	ro.cfg.ReplayRdbEnableRestore = false
	pipe := rdb.ParseRdb(bytes.NewReader(snap), nil, 16, ro.rdbParseOptions()...)
	ctx, cancel := context.WithTimeout(context.Background(), 20*time.Second)
	defer cancel()
	if err := ro.rdbReplayBisync(ctx, "run-1", 100, pipe); err != nil {
		t.Fatalf("replay: %v", err)
	}
	srv.mu.Lock()
	defer srv.mu.Unlock()
	t.Logf("commands seen by the target: %v", srv.log)
	if o := srv.lookup(0, "k"); o == nil || !reflect.DeepEqual(o.list, []string{"new"}) || o.expireAt == 0 {
		t.Errorf("bisync path, replace: control key \"k\" must be [new] with expiry, got %+v", o)
	}
	o := srv.lookup(0, "")
	if o == nil || !reflect.DeepEqual(o.list, []string{"new"}) {
		t.Errorf("bisync path, replace: key \"\" must end with exactly the snapshot's value [new], got %+v", o)
	}
	if o != nil && o.expireAt == 0 {
		t.Errorf("bisync path, replace: key \"\" must end with the snapshot's expiry, but it has none")
	}
}

// replay wrapper (generated by /verif/tools/mkdriver.py): the demonstration tests above run against the
// real code; a failing one reproduces the violation
func TestVerifReplay_syncer_bisyncEmptyKey(t *testing.T) {
	failed := ""
	if !t.Run("TestC20EmptyKeyIgnoreBisyncPath", TestC20EmptyKeyIgnoreBisyncPath) {
		failed += "TestC20EmptyKeyIgnoreBisyncPath "
	}
	if !t.Run("TestC20EmptyKeyErrorBisyncPath", TestC20EmptyKeyErrorBisyncPath) {
		failed += "TestC20EmptyKeyErrorBisyncPath "
	}
	if !t.Run("TestC20EmptyKeyReplaceBisyncPath", TestC20EmptyKeyReplaceBisyncPath) {
		failed += "TestC20EmptyKeyReplaceBisyncPath "
	}
	if failed != "" {
		fmt.Println("REPRODUCED: bisync full sync: a snapshot key that is the empty string bypasses the key-exists policy (no EXISTS probe, no DEL, expiry dropped) [failing demonstration(s): " + failed + "]")
		return
	}
	fmt.Println("NOT-REPRODUCED")
	fmt.Println("BOUNDED-OK cases=3")
}
