//go:build verif

package rdbrestore

// Replay driver for the key-exists policy of RdbReplay.Replay (expanded path) on the real code:
// a pre-existing target key, a snapshot value delivered in one or two chunks, each policy.

import (
	"bufio"
	"fmt"
	"strings"
	"testing"

	"github.com/mgtv-tech/redis-GunYu/config"
	"github.com/mgtv-tech/redis-GunYu/pkg/rdb"
	"github.com/mgtv-tech/redis-GunYu/pkg/redis/client/common"
)

type verifParser struct {
	key    []byte
	first  bool
	split  bool
	fields []string
}

func (p *verifParser) Type() int                { return rdb.RdbObjectHash }
func (p *verifParser) RdbType() int             { return 4 }
func (p *verifParser) ReadBuffer(*rdb.Loader)   {}
func (p *verifParser) Key() []byte              { return p.key }
func (p *verifParser) Value() []byte            { return nil }
func (p *verifParser) CreateValueDump() []byte  { return nil }
func (p *verifParser) ValueDumpSize() int       { return 10 }
func (p *verifParser) FirstBin() bool           { return p.first }
func (p *verifParser) IsSplited() bool          { return p.split }
func (p *verifParser) DB() uint32               { return 0 }
func (p *verifParser) CanRestore() bool         { return true }
func (p *verifParser) ExecCmd(f rdb.RdbObjExecutor) {
	for _, fl := range p.fields {
		f("HSET", p.key, []byte(fl), []byte("v"))
	}
}

type verifConn struct {
	exists  bool
	cmds    []string
	pending int
}

func (c *verifConn) rec(cmd string, args ...interface{}) {
	s := strings.ToLower(cmd)
	for _, a := range args {
		switch x := a.(type) {
		case []byte:
			s += " " + string(x)
		default:
			s += " " + fmt.Sprint(x)
		}
	}
	c.cmds = append(c.cmds, s)
}
func (c *verifConn) Close() error { return nil }
func (c *verifConn) Do(cmd string, args ...interface{}) (interface{}, error) {
	c.rec(cmd, args...)
	switch strings.ToLower(cmd) {
	case "exists":
		if c.exists {
			return int64(1), nil
		}
		return int64(0), nil
	case "restore":
		if c.exists {
			return nil, common.RedisError("BUSYKEY Target key name already exists")
		}
		return "OK", nil
	}
	return int64(1), nil
}
func (c *verifConn) Send(cmd string, args ...interface{}) error {
	c.rec(cmd, args...)
	c.pending++
	return nil
}
func (c *verifConn) SendAndFlush(cmd string, args ...interface{}) error { return c.Send(cmd, args...) }
func (c *verifConn) Receive() (interface{}, error) {
	c.pending--
	return int64(1), nil
}
func (c *verifConn) ReceiveString() (string, error)    { return "OK", nil }
func (c *verifConn) ReceiveBool() (bool, error)        { return true, nil }
func (c *verifConn) BufioReader() *bufio.Reader        { return nil }
func (c *verifConn) BufioWriter() *bufio.Writer        { return nil }
func (c *verifConn) Flush() error                      { return nil }
func (c *verifConn) RedisType() config.RedisType       { return config.RedisTypeStandalone }
func (c *verifConn) Addresses() []string               { return nil }
func (c *verifConn) NewBatcher(bool) common.CmdBatcher { return nil }
func (c *verifConn) NewTxnBatcher() common.CmdBatcher  { return nil }
func (c *verifConn) IterateNodes(func(string, interface{}, error), string, ...interface{}) {
}

func TestVerifReplay_rdbrestore_Replay(t *testing.T) {
	for _, policy := range []string{"ignore", "error", "replace"} {
		for _, chunks := range []int{1, 2} {
			conn := &verifConn{exists: true}
			rr := &RdbReplay{Client: conn, EnableRestore: false, KeyExists: policy, MaxProtoBulkLen: 1 << 20}
			var errs []error
			for i := 0; i < chunks; i++ {
				e := &rdb.BinEntry{Key: []byte("k"), ExpireAt: 1 << 62, ObjectParser: &verifParser{key: []byte("k"), first: i == 0, split: chunks > 1, fields: []string{fmt.Sprintf("f%d", i)}}}
				err := rr.Replay(e)
				errs = append(errs, err)
				if err != nil {
					break
				}
			}
			var writes []string
			for _, c := range conn.cmds {
				if !strings.HasPrefix(c, "exists") {
					writes = append(writes, c)
				}
			}
			switch policy {
			case "ignore":
				if len(writes) > 0 || errs[len(errs)-1] != nil {
					fmt.Printf("REPRODUCED: key-exists policy \"ignore\", expanded path, value in %d chunk(s), key already on the target: the target received %v (errors %v) - the existing key must stay untouched\n", chunks, writes, errs)
					t.Fail()
					return
				}
			case "error":
				if errs[0] == nil || len(writes) > 0 {
					fmt.Printf("REPRODUCED: key-exists policy \"error\", expanded path: error %v, target received %v\n", errs[0], writes)
					t.Fail()
					return
				}
			case "replace":
				if len(writes) == 0 || !strings.HasPrefix(writes[0], "del k") {
					fmt.Printf("REPRODUCED: key-exists policy \"replace\", expanded path: the old value is not removed first, target received %v\n", writes)
					t.Fail()
					return
				}
			}
		}
	}
	fmt.Println("NOT-REPRODUCED")
}
