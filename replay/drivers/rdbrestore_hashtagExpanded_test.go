//go:build verif

package rdbrestore

// C20 demo: key-exists policy on the plain full-sync path with replaceHashTag, native-command replay.
//
// RdbReplay.Replay strips the hash tag braces from e.Key and uses the stripped name for the
// EXISTS probe, the DEL of policy "replace" and the PEXPIRE - but the native commands of the
// expanded path are produced by e.ObjectParser.ExecCmd, which still carries the original key.
// So the probe / DEL / PEXPIRE address one target key ("ak") and the writes another ("{a}k"):
//   - replace: the pre-existing target key "ak" is deleted and NOT replaced by the snapshot value,
//     which lands under "{a}k" without the snapshot's expiry (the RESTORE path, by contrast,
//     leaves "ak" = snapshot value with expiry: the outcome depends on how the value is replayed);
//   - ignore / error: a pre-existing target key "{a}k" is not seen by the probe and the
//     snapshot's members are merged into it.

import (
	"bufio"
	"bytes"
	"encoding/binary"
	"fmt"
	"io"
	"net"
	"sort"
	"strconv"
	"strings"
	"sync"
	"testing"
	"time"

	"github.com/mgtv-tech/redis-GunYu/config"
	"github.com/mgtv-tech/redis-GunYu/pkg/digest"
	"github.com/mgtv-tech/redis-GunYu/pkg/rdb"
	"github.com/mgtv-tech/redis-GunYu/pkg/redis/client/conn"
)

// ---------------------------------------------------------------------------------------------
// minimal in-memory Redis stand-in (loopback TCP, RESP2)

type htObj struct {
	typ      string // "string" | "hash" | "list" | "set" | "restored"
	str      string
	hash     map[string]string
	list     []string
	set      map[string]bool
	payload  []byte
	expireAt int64 // unix ms, 0 = no expiry
}

type htStatus string
type htError string

type htServer struct {
	mu  sync.Mutex
	ln  net.Listener
	dbs map[int]map[string]*htObj
	// RDB object types this target cannot decode in a RESTORE payload
	unknownTypes map[byte]bool
	log          []string
}

func newHtServer(t *testing.T) *htServer {
	ln, err := net.Listen("tcp", "127.0.0.1:0")
	if err != nil {
		t.Fatalf("listen: %v", err)
	}
	s := &htServer{ln: ln, dbs: map[int]map[string]*htObj{}, unknownTypes: map[byte]bool{}}
	go func() {
		for {
			c, err := ln.Accept()
			if err != nil {
				return
			}
			go s.serve(c)
		}
	}()
	t.Cleanup(func() { ln.Close() })
	return s
}

func (s *htServer) addr() string { return s.ln.Addr().String() }

func (s *htServer) db(i int) map[string]*htObj {
	if s.dbs[i] == nil {
		s.dbs[i] = map[string]*htObj{}
	}
	return s.dbs[i]
}

func (s *htServer) lookup(db int, key string) *htObj {
	o := s.db(db)[key]
	if o == nil {
		return nil
	}
	if o.expireAt != 0 && time.Now().UnixMilli() >= o.expireAt {
		delete(s.db(db), key)
		return nil
	}
	return o
}

func htReadCommand(r *bufio.Reader) ([]string, error) {
	line, err := r.ReadString('\n')
	if err != nil {
		return nil, err
	}
	line = strings.TrimRight(line, "\r\n")
	if len(line) == 0 || line[0] != '*' {
		return nil, fmt.Errorf("unexpected request line %q", line)
	}
	n, err := strconv.Atoi(line[1:])
	if err != nil {
		return nil, err
	}
	args := make([]string, 0, n)
	for i := 0; i < n; i++ {
		hdr, err := r.ReadString('\n')
		if err != nil {
			return nil, err
		}
		hdr = strings.TrimRight(hdr, "\r\n")
		if len(hdr) == 0 || hdr[0] != '$' {
			return nil, fmt.Errorf("unexpected bulk header %q", hdr)
		}
		l, err := strconv.Atoi(hdr[1:])
		if err != nil {
			return nil, err
		}
		buf := make([]byte, l+2)
		if _, err := io.ReadFull(r, buf); err != nil {
			return nil, err
		}
		args = append(args, string(buf[:l]))
	}
	return args, nil
}

func htWriteReply(w *bufio.Writer, v interface{}) {
	switch x := v.(type) {
	case htStatus:
		fmt.Fprintf(w, "+%s\r\n", string(x))
	case htError:
		fmt.Fprintf(w, "-%s\r\n", string(x))
	case int:
		fmt.Fprintf(w, ":%d\r\n", x)
	case string:
		fmt.Fprintf(w, "$%d\r\n%s\r\n", len(x), x)
	case nil:
		fmt.Fprintf(w, "$-1\r\n")
	case []interface{}:
		fmt.Fprintf(w, "*%d\r\n", len(x))
		for _, e := range x {
			htWriteReply(w, e)
		}
	default:
		panic(fmt.Sprintf("unsupported reply %T", v))
	}
}

type htConnState struct {
	db      int
	inMulti bool
	queue   [][]string
}

func (s *htServer) serve(c net.Conn) {
	defer c.Close()
	r := bufio.NewReader(c)
	w := bufio.NewWriter(c)
	st := &htConnState{}
	for {
		args, err := htReadCommand(r)
		if err != nil {
			return
		}
		s.mu.Lock()
		reply := s.dispatch(st, args)
		s.mu.Unlock()
		htWriteReply(w, reply)
		if r.Buffered() == 0 {
			w.Flush()
		}
	}
}

func (s *htServer) dispatch(st *htConnState, args []string) interface{} {
	cmd := strings.ToLower(args[0])
	switch cmd {
	case "multi":
		st.inMulti = true
		st.queue = nil
		return htStatus("OK")
	case "exec":
		if !st.inMulti {
			return htError("ERR EXEC without MULTI")
		}
		st.inMulti = false
		out := make([]interface{}, 0, len(st.queue))
		for _, q := range st.queue {
			out = append(out, s.exec(st, q))
		}
		st.queue = nil
		return out
	}
	if st.inMulti {
		st.queue = append(st.queue, args)
		return htStatus("QUEUED")
	}
	return s.exec(st, args)
}

const htWrongType = htError("WRONGTYPE Operation against a key holding the wrong kind of value")

func (s *htServer) exec(st *htConnState, args []string) interface{} {
	cmd := strings.ToLower(args[0])
	if cmd != "ping" {
		entry := cmd
		if len(args) > 1 {
			entry += " " + strconv.Quote(args[1])
		}
		if cmd == "restore" && strings.EqualFold(args[len(args)-1], "replace") {
			entry += " REPLACE"
		}
		s.log = append(s.log, entry)
	}
	db := s.db(st.db)
	switch cmd {
	case "ping":
		return htStatus("PONG")
	case "select":
		n, err := strconv.Atoi(args[1])
		if err != nil {
			return htError("ERR invalid DB index")
		}
		st.db = n
		return htStatus("OK")
	case "exists":
		n := 0
		for _, k := range args[1:] {
			if s.lookup(st.db, k) != nil {
				n++
			}
		}
		return n
	case "del":
		n := 0
		for _, k := range args[1:] {
			if s.lookup(st.db, k) != nil {
				delete(db, k)
				n++
			}
		}
		return n
	case "set":
		db[args[1]] = &htObj{typ: "string", str: args[2]}
		return htStatus("OK")
	case "hset":
		o := s.lookup(st.db, args[1])
		if o == nil {
			o = &htObj{typ: "hash", hash: map[string]string{}}
			db[args[1]] = o
		} else if o.typ != "hash" {
			return htWrongType
		}
		n := 0
		for i := 2; i+1 < len(args); i += 2 {
			if _, ok := o.hash[args[i]]; !ok {
				n++
			}
			o.hash[args[i]] = args[i+1]
		}
		return n
	case "rpush":
		o := s.lookup(st.db, args[1])
		if o == nil {
			o = &htObj{typ: "list"}
			db[args[1]] = o
		} else if o.typ != "list" {
			return htWrongType
		}
		o.list = append(o.list, args[2:]...)
		return len(o.list)
	case "sadd":
		o := s.lookup(st.db, args[1])
		if o == nil {
			o = &htObj{typ: "set", set: map[string]bool{}}
			db[args[1]] = o
		} else if o.typ != "set" {
			return htWrongType
		}
		n := 0
		for _, m := range args[2:] {
			if !o.set[m] {
				n++
			}
			o.set[m] = true
		}
		return n
	case "pexpire":
		o := s.lookup(st.db, args[1])
		if o == nil {
			return 0
		}
		ms, err := strconv.ParseInt(args[2], 10, 64)
		if err != nil {
			return htError("ERR value is not an integer or out of range")
		}
		o.expireAt = time.Now().UnixMilli() + ms
		return 1
	case "restore":
		// redis/src/cluster.c:restoreCommand, in its order of checks
		if len(args) < 4 {
			return htError("ERR wrong number of arguments for 'restore' command")
		}
		replace := false
		for i := 4; i < len(args); i++ {
			switch strings.ToLower(args[i]) {
			case "replace":
				replace = true
			case "absttl":
			case "idletime", "freq":
				i++
			default:
				return htError("ERR syntax error")
			}
		}
		key := args[1]
		if !replace && s.lookup(st.db, key) != nil {
			return htError("BUSYKEY Target key name already exists.")
		}
		ttl, err := strconv.ParseInt(args[2], 10, 64)
		if err != nil || ttl < 0 {
			return htError("ERR Invalid TTL value, must be >= 0")
		}
		payload := []byte(args[3])
		if len(payload) < 10 {
			return htError("ERR DUMP payload version or checksum are wrong")
		}
		crc := digest.New()
		crc.Write(payload[:len(payload)-8])
		if binary.LittleEndian.Uint64(payload[len(payload)-8:]) != crc.Sum64() {
			return htError("ERR DUMP payload version or checksum are wrong")
		}
		if s.unknownTypes[payload[0]] {
			return htError("ERR Bad data format")
		}
		o := &htObj{typ: "restored", payload: payload}
		if ttl > 0 {
			o.expireAt = time.Now().UnixMilli() + ttl
		}
		db[key] = o
		return htStatus("OK")
	}
	return htError("ERR unknown command '" + args[0] + "'")
}

// ---------------------------------------------------------------------------------------------

func htRdbString(b *bytes.Buffer, s string) {
	if len(s) >= 64 {
		panic("only short strings here")
	}
	b.WriteByte(byte(len(s)))
	b.WriteString(s)
}

// one key of type RDB_TYPE_SET with an expiry, RDB version 9
func htSnapshot(key string, expireAtMs uint64, members ...string) []byte {
	var b bytes.Buffer
	b.WriteString("REDIS0009")
	b.WriteByte(rdb.RdbFlagSelectDB)
	b.WriteByte(0)
	b.WriteByte(rdb.RdbFlagExpiryMS)
	var ts [8]byte
	binary.LittleEndian.PutUint64(ts[:], expireAtMs)
	b.Write(ts[:])
	b.WriteByte(rdb.RdbTypeSet)
	htRdbString(&b, key)
	b.WriteByte(byte(len(members)))
	for _, m := range members {
		htRdbString(&b, m)
	}
	b.WriteByte(rdb.RdbFlagEOF)
	b.Write(make([]byte, 8)) // checksum 0 = not checked
	return b.Bytes()
}

func htMembers(o *htObj) []string {
	ms := []string{}
	if o == nil {
		return ms
	}
	for m := range o.set {
		ms = append(ms, m)
	}
	sort.Strings(ms)
	return ms
}

func htReplay(t *testing.T, srv *htServer, snapshot []byte, policy string, enableRestore bool) error {
	cli, err := conn.NewRedisConn(config.RedisConfig{Addresses: []string{srv.addr()}, Type: config.RedisTypeStandalone})
	if err != nil {
		t.Fatalf("connect: %v", err)
	}
	defer cli.Close()
	rr := &RdbReplay{
		Client:          cli,
		RedisVersion:    "7.2.4",
		EnableRestore:   enableRestore,
		MaxProtoBulkLen: 512 * 1024 * 1024,
		KeyExists:       policy,
		ReplaceHashTag:  true,
	}
	for e := range rdb.ParseRdb(bytes.NewReader(snapshot), nil, 16, rdb.WithTargetRedisVersion("7.2.4")) {
		if e.Err != nil {
			t.Fatalf("snapshot does not parse: %v", e.Err)
		}
		if e.Done {
			break
		}
		if err := rr.Replay(e); err != nil {
			return err
		}
	}
	return nil
}

// Control: through RESTORE the policy "replace" leaves the target key "ak" with the snapshot value and expiry.
func TestC20HashTagReplaceRestorePathControl(t *testing.T) {
	srv := newHtServer(t)
	srv.db(0)["ak"] = &htObj{typ: "set", set: map[string]bool{"old": true}}
	expireAt := uint64(time.Now().Add(time.Hour).UnixMilli())
	if err := htReplay(t, srv, htSnapshot("{a}k", expireAt, "new"), "replace", true); err != nil {
		t.Fatalf("replay: %v", err)
	}
	srv.mu.Lock()
	defer srv.mu.Unlock()
	t.Logf("commands seen by the target: %v", srv.log)
	if o := srv.lookup(0, "ak"); o == nil || o.typ != "restored" || o.expireAt == 0 {
		t.Errorf("RESTORE path: key ak must hold the snapshot value with expiry, got %+v", o)
	}
	if o := srv.lookup(0, "{a}k"); o != nil {
		t.Errorf("RESTORE path: key {a}k must not exist, got %+v", o)
	}
}

func TestC20HashTagReplaceNativeCommandPath(t *testing.T) {
	srv := newHtServer(t)
	srv.db(0)["ak"] = &htObj{typ: "set", set: map[string]bool{"old": true}}
	expireAt := uint64(time.Now().Add(time.Hour).UnixMilli())
	if err := htReplay(t, srv, htSnapshot("{a}k", expireAt, "new"), "replace", false); err != nil {
		t.Fatalf("replay: %v", err)
	}
	srv.mu.Lock()
	defer srv.mu.Unlock()
	t.Logf("commands seen by the target: %v", srv.log)
	o := srv.lookup(0, "ak")
	if got := htMembers(o); o == nil || len(got) != 1 || got[0] != "new" {
		t.Errorf("native path, replace: pre-existing key ak must end with exactly the snapshot value {new}, got %v (exists=%v)", got, o != nil)
	}
	if o != nil && o.expireAt == 0 {
		t.Errorf("native path, replace: key ak must carry the snapshot's expiry")
	}
	if o2 := srv.lookup(0, "{a}k"); o2 != nil {
		t.Errorf("native path, replace: the snapshot value was written under {a}k = %v (expireAt=%d) instead of ak", htMembers(o2), o2.expireAt)
	}
}

func TestC20HashTagIgnoreNativeCommandPath(t *testing.T) {
	srv := newHtServer(t)
	// the key the native commands are going to write already exists on the target
	srv.db(0)["{a}k"] = &htObj{typ: "set", set: map[string]bool{"old": true}}
	expireAt := uint64(time.Now().Add(time.Hour).UnixMilli())
	if err := htReplay(t, srv, htSnapshot("{a}k", expireAt, "new"), "ignore", false); err != nil {
		t.Fatalf("replay: %v", err)
	}
	srv.mu.Lock()
	defer srv.mu.Unlock()
	t.Logf("commands seen by the target: %v", srv.log)
	if got := htMembers(srv.lookup(0, "{a}k")); len(got) != 1 || got[0] != "old" {
		t.Errorf("native path, ignore: the replay wrote into the pre-existing key {a}k: %v, nothing of the snapshot may be merged into an existing key", got)
	}
}

// replay wrapper (generated by /verif/tools/mkdriver.py): the demonstration tests above run against the
// real code; a failing one reproduces the violation
func TestVerifReplay_rdbrestore_hashtagExpanded(t *testing.T) {
	failed := ""
	if !t.Run("TestC20HashTagReplaceNativeCommandPath", TestC20HashTagReplaceNativeCommandPath) {
		failed += "TestC20HashTagReplaceNativeCommandPath "
	}
	if !t.Run("TestC20HashTagIgnoreNativeCommandPath", TestC20HashTagIgnoreNativeCommandPath) {
		failed += "TestC20HashTagIgnoreNativeCommandPath "
	}
	if failed != "" {
		fmt.Println("REPRODUCED: with replaceHashTag the native commands of an expanded value are written to the snapshot key while EXISTS/DEL/PEXPIRE address the stripped key [failing demonstration(s): " + failed + "]")
		return
	}
	fmt.Println("NOT-REPRODUCED")
	fmt.Println("BOUNDED-OK cases=2")
}
