//go:build verif

package redis

// Replay driver: a node batch [LPOP q (null reply), INCR c (:1), SET u v (-MOVED to node B)] on
// the real Batch.Put / Exec / doBatch / handleReply / handleMove with two in-process TCP fakes.
// The redirected SET must be the command resubmitted to node B (or an error is reported);
// INCR must not run a second time.

import (
	"fmt"
	"net"
	"strings"
	"testing"

	"github.com/mgtv-tech/redis-GunYu/pkg/redis/client/proto"
)

func TestVerifReplay_cluster_doBatch(t *testing.T) {
	lnA, err := net.Listen("tcp", "127.0.0.1:0")
	if err != nil {
		t.Skip("no loopback")
	}
	defer lnA.Close()
	lnB, err := net.Listen("tcp", "127.0.0.1:0")
	if err != nil {
		t.Skip("no loopback")
	}
	defer lnB.Close()
	gotB := make(chan []string, 4)
	doneA := serveOnce(t, lnA, func(conn net.Conn) error {
		defer conn.Close()
		rd := proto.NewReader(conn, 4096)
		for i := 0; i < 3; i++ {
			if _, err := rd.ReadReply(); err != nil {
				return err
			}
		}
		_, err := conn.Write([]byte(fmt.Sprintf("$-1\r\n:1\r\n-MOVED 8338 %s\r\n", lnB.Addr().String())))
		return err
	})
	doneB := serveOnce(t, lnB, func(conn net.Conn) error {
		defer conn.Close()
		rd := proto.NewReader(conn, 4096)
		reply, err := rd.ReadReply()
		if err != nil {
			return err
		}
		gotB <- normalizeCommand(t, reply)
		_, err = conn.Write([]byte("+OK\r\n"))
		return err
	})
	cluster := newRedirectTestCluster()
	cluster.handleMoveError = true
	cluster.handleAskError = true
	nodeA := newRedirectTestNode(lnA.Addr().String())
	nodeB := newRedirectTestNode(lnB.Addr().String())
	cluster.nodes[nodeA.address] = nodeA
	cluster.nodes[nodeB.address] = nodeB
	for i := range cluster.slots {
		cluster.slots[i] = nodeA
	}
	bat := cluster.NewBatch()
	bat.Put("lpop", []byte("q{a}"))
	bat.Put("incr", []byte("c{a}"))
	bat.Put("set", []byte("u{a}"), []byte("v"))
	replies, execErr := bat.Exec()
	<-doneA
	select {
	case cmd := <-gotB:
		if len(cmd) == 0 || cmd[0] != "set" {
			fmt.Printf("REPRODUCED: batch [lpop q{a} -> null, incr c{a} -> 1, set u{a} v -> MOVED to B]: node B received %q instead of the redirected SET (Exec: replies=%v err=%v): the reply was handled with another command\n", strings.Join(cmd, " "), replies, execErr)
			t.Fail()
			return
		}
	default:
		if execErr == nil {
			fmt.Printf("REPRODUCED: the SET answered -MOVED was resubmitted nowhere and Exec reports no error (replies=%v)\n", replies)
			t.Fail()
			return
		}
	}
	_ = doneB
	fmt.Println("NOT-REPRODUCED")
}
